package main

// conc.go — concurrency suites (C14, C17, C18): goroutines run View/Update on
// the real library (yields injected through the verif hook); every transaction
// derives its position in the serial order from the data it reads, the run is
// then emitted as a serial trace in that order and replayed by the model and
// the L0 specification.

import (
	"fmt"
	"os"
	"strings"
	"runtime"
	"sort"
	"strconv"
	"sync"
	"sync/atomic"
	"syscall"
	"time"

	"github.com/xujiajun/nutsdb"
)

type ctx struct {
	pos      int      // serial position: number of write transactions committed before it (read from the data)
	write    bool
	lines    []string // call = result lines
	began    int64    // write transactions finished before Begin was called (real-time lower bound)
	ended    int64    // write transactions finished when it returned
	ok       bool
	id       uint64
}

func itob(i int) []byte { return []byte(strconv.Itoa(i)) }

// suiteConc: mode "plain" (C14), "merge" (C17: a goroutine calls Merge meanwhile).
func suiteConc(seed uint64, n int, work string, withMerge bool) {
	os.MkdirAll(work, 0755)
	root := NewPRNG(seed)
	yield := int32(0)
	nutsdb.VerifObserver = func(op, path string, off int64, d []byte) error {
		if atomic.LoadInt32(&yield) == 1 {
			runtime.Gosched()
		}
		return nil
	}
	for h := 0; h < n; h++ {
		r := root.Fork()
		ndb := 1 + r.Intn(2)
		mode := r.Intn(2)
		seg := []int{200, 400, 1000}[r.Intn(3)]
		open := optLine(mode, r.Intn(2), r.Intn(2), r.Intn(2), seg)
		atomic.StoreInt32(&yield, int32(r.Intn(2)))
		var wgAll sync.WaitGroup
		type dbrun struct {
			dir  string
			db   *nutsdb.DB
			txs  []*ctx
			mu   sync.Mutex
			fin  int64
			errs []string
			npad     int
			premerge string
		}
		runs := make([]*dbrun, ndb)
		deadline := time.After(20 * time.Second)
		done := make(chan struct{})
		for d := 0; d < ndb; d++ {
			dr := &dbrun{dir: fmt.Sprintf("%s/c%d_%d", work, h, d)}
			runs[d] = dr
			os.RemoveAll(dr.dir)
			t := splitOpts(open)
			db, err := nutsdb.Open(nutsdb.Options{Dir: dr.dir, EntryIdxMode: nutsdb.EntryIdxMode(t[0]), RWMode: nutsdb.RWMode(t[1]),
				StartFileLoadingMode: nutsdb.RWMode(t[2]), SyncEnable: t[3] == 1, SegmentSize: int64(t[4]), NodeNum: 1})
			if err != nil {
				emit("#SPEC open failed in conc suite: %v", err)
				continue
			}
			dr.db = db
			// seed state: seq = 0, and a key that expired long ago (a read of it must not write shared state)
			db.Update(func(tx *nutsdb.Tx) error {
				if err := tx.Put("m", []byte("seq"), itob(0), 0); err != nil {
					return err
				}
				return tx.PutWithTimestamp("m", []byte("exp"), []byte("old"), 1, 1000)
			})
			// half of the plain runs: a successful Merge on this handle before the goroutines start
			// (the lock protocol must survive it); needs two segments of key/value data
			dr.premerge = ""
			if !withMerge && r.Chance(1, 2) {
				for k := 0; k < 4; k++ {
					kk := k
					db.Update(func(tx *nutsdb.Tx) error {
						return tx.PutWithTimestamp("m", []byte(fmt.Sprintf("pad%d", kk)), make([]byte, seg/3), 0, 1700000000)
					})
				}
				dr.npad = 4
				if err := db.Merge(); err == nil {
					dr.premerge = "ok"
				} else {
					dr.premerge = "err"
				}
			}
			ng := 4 + r.Intn(13)
			for g := 0; g < ng; g++ {
				gr := r.Fork()
				wgAll.Add(1)
				go func(dr *dbrun, gr *PRNG, g int) {
					defer wgAll.Done()
					for k := 0; k < 6; k++ {
						c := &ctx{write: gr.Chance(3, 5), began: atomic.LoadInt64(&dr.fin)}
						var err error
						body := func(tx *nutsdb.Tx) error {
							c.id = tx.VerifID()
							c.lines = nil
							e, err := tx.Get("m", []byte("seq"))
							if err != nil {
								return err
							}
							v, _ := strconv.Atoi(string(e.Value))
							c.pos = v
							c.lines = append(c.lines, fmt.Sprintf("get %s %s = entry %s %s", hx([]byte("m")), hx([]byte("seq")), hx([]byte("seq")), hx(e.Value)))
							rd := func() {
								// a consistent state: both lists have the same length as seq says
								for _, lk := range []string{"A", "B"} {
									if withMerge {
										// Merge duplicates list elements (known finding F14): use sets here
										n, serr := tx.SCard("s", []byte(lk))
										res := "err"
										if serr == nil {
											res = "int " + strconv.Itoa(n)
										}
										c.lines = append(c.lines, fmt.Sprintf("scard %s %s = %s", hx([]byte("s")), hx([]byte(lk)), res))
										runtime.Gosched()
										continue
									}
									n, lerr := tx.LSize("l", []byte(lk))
									res := "err"
									if lerr == nil {
										res = "int " + strconv.Itoa(n)
									}
									c.lines = append(c.lines, fmt.Sprintf("lsize %s %s = %s", hx([]byte("l")), hx([]byte(lk)), res))
									runtime.Gosched()
								}
								zc, zerr := tx.ZCard("z")
								res := "err"
								if zerr == nil {
									res = "int " + strconv.Itoa(zc)
								}
								c.lines = append(c.lines, fmt.Sprintf("zcard %s = %s", hx([]byte("z")), res))
								e2, err2 := tx.Get("m", []byte("seq"))
								if err2 == nil {
									c.lines = append(c.lines, fmt.Sprintf("get %s %s = entry %s %s", hx([]byte("m")), hx([]byte("seq")), hx([]byte("seq")), hx(e2.Value)))
								}
							}
							if !c.write {
								rd()
								if _, xerr := tx.Get("m", []byte("exp")); xerr == nil {
									c.lines = append(c.lines, fmt.Sprintf("get %s %s = entry ? ?", hx([]byte("m")), hx([]byte("exp"))))
								} else {
									c.lines = append(c.lines, fmt.Sprintf("get %s %s = err", hx([]byte("m")), hx([]byte("exp"))))
								}
								return nil
							}
							nv := itob(v + 1)
							w := func(call string, err error) error {
								res := "ok"
								if err != nil {
									res = "err"
								}
								c.lines = append(c.lines, call+" = "+res)
								return err
							}
							if err := w(fmt.Sprintf("put %s %s %s 0 1700000000", hx([]byte("m")), hx([]byte("seq")), hx(nv)), tx.PutWithTimestamp("m", []byte("seq"), nv, 0, 1700000000)); err != nil {
								return err
							}
							if withMerge {
								w(fmt.Sprintf("sadd %s %s %s", hx([]byte("s")), hx([]byte("A")), hx(nv)), tx.SAdd("s", []byte("A"), nv))
							} else {
								w(fmt.Sprintf("rpush %s %s %s", hx([]byte("l")), hx([]byte("A")), hx(nv)), tx.RPush("l", []byte("A"), nv))
							}
							w(fmt.Sprintf("put %s %s %s 0 1700000000", hx([]byte("m")), hx([]byte(fmt.Sprintf("g%d", g))), hx(nv)), tx.PutWithTimestamp("m", []byte(fmt.Sprintf("g%d", g)), nv, 0, 1700000000))
							w(fmt.Sprintf("zadd %s %s %d %s", hx([]byte("z")), hx(nv), v%5, hx(nv)), tx.ZAdd("z", nv, float64(v%5), nv))
							if withMerge {
								w(fmt.Sprintf("sadd %s %s %s", hx([]byte("s")), hx([]byte("B")), hx(nv)), tx.SAdd("s", []byte("B"), nv))
							} else {
								w(fmt.Sprintf("rpush %s %s %s", hx([]byte("l")), hx([]byte("B")), hx(nv)), tx.RPush("l", []byte("B"), nv))
							}
							if gr.Chance(1, 6) {
								return fmt.Errorf("abort") // rolled back: no effect
							}
							if gr.Chance(1, 12) {
								// an entry larger than the segment: Commit must fail, leave no trace and release the lock
								tx.PutWithTimestamp("m", []byte("big"), make([]byte, seg+1), 0, 1700000000)
							}
							return nil
						}
						if c.write {
							err = dr.db.Update(body)
						} else {
							err = dr.db.View(body)
						}
						c.ok = err == nil
						if c.write && c.ok {
							atomic.AddInt64(&dr.fin, 1)
						}
						c.ended = atomic.LoadInt64(&dr.fin)
						dr.mu.Lock()
						dr.txs = append(dr.txs, c)
						dr.mu.Unlock()
					}
				}(dr, gr, g)
			}
			if withMerge {
				wgAll.Add(1)
				go func(dr *dbrun) {
					defer wgAll.Done()
					for k := 0; k < 3; k++ {
						time.Sleep(time.Duration(200) * time.Microsecond)
						dr.db.Merge()
					}
				}(dr)
			}
		}
		go func() { wgAll.Wait(); close(done) }()
		select {
		case <-done:
		case <-deadline:
			emit("#H %d conc %s dbs=%d", h, open, ndb)
			emit("#SPEC deadlock: transactions still blocked after 20s (%s, merge=%v)", open, withMerge)
			out.Flush()
			os.Exit(3)
		}
		for d, dr := range runs {
			if dr.db == nil {
				continue
			}
			emit("#H %d.%d conc %s merge=%v goroutines-yield=%d", h, d, open, withMerge, atomic.LoadInt32(&yield))
			// serial order: writers by the sequence number they read; readers after the writer that produced what they saw
			var ws, rs []*ctx
			for _, c := range dr.txs {
				if c.write && c.ok {
					ws = append(ws, c)
				} else if !c.write && c.ok {
					rs = append(rs, c)
				}
			}
			sort.Slice(ws, func(i, j int) bool { return ws[i].pos < ws[j].pos })
			for i, c := range ws {
				if c.pos != i {
					emit("#SPEC not serializable: committed write transactions read sequence numbers %v (lost update or dirty read at position %d)", posList(ws), i)
					break
				}
			}
			for _, c := range append(append([]*ctx{}, ws...), rs...) {
				if int64(c.pos) < c.began {
					emit("#SPEC real-time order violated: a transaction that began after %d write transactions had returned saw only %d", c.began, c.pos)
				}
			}
			// the serial trace, replayed by the model and the specification
			emit("reset = -")
			emit("now %d = -", time.Now().Unix())
			emit("%s = ok", open)
			emit("begin w 1 = ok")
			emit("put %s %s %s 0 %d = ok", hx([]byte("m")), hx([]byte("seq")), hx(itob(0)), 1700000000)
			emit("put %s %s %s 1 1000 = ok", hx([]byte("m")), hx([]byte("exp")), hx([]byte("old")))
			emit("commit = ok")
			for k := 0; k < dr.npad; k++ {
				emit("begin w %d = ok", 2+k)
				emit("put %s %s %s 0 1700000000 = ok", hx([]byte("m")), hx([]byte(fmt.Sprintf("pad%d", k))), hx(make([]byte, splitOpts(open)[4]/3)))
				emit("commit = ok")
			}
			if dr.premerge != "" {
				emit("merge = %s", dr.premerge)
			}
			ri := 0
			sort.Slice(rs, func(i, j int) bool { return rs[i].pos < rs[j].pos })
			flushReaders := func(upto int) {
				for ri < len(rs) && rs[ri].pos <= upto {
					emit("begin r %d = ok", rs[ri].id)
					for _, l := range rs[ri].lines {
						emit("%s", l)
					}
					emit("rollback = ok")
					ri++
				}
			}
			flushReaders(0)
			for i, c := range ws {
				emit("begin w %d = ok", c.id)
				for _, l := range c.lines {
					emit("%s", l)
				}
				emit("commit = ok")
				flushReaders(i + 1)
			}
			// final state after a clean reopen
			if err := dr.db.Close(); err != nil {
				emit("#SPEC close failed after concurrent run: %v", err)
			}
			st := NewSt(work)
			st.dir = dr.dir
			if st.run(open) == "ok" {
				st.run("begin r ?")
				st.run("get " + hx([]byte("m")) + " " + hx([]byte("seq")))
				if withMerge {
					st.run("smembers " + hx([]byte("s")) + " " + hx([]byte("A")))
					st.run("smembers " + hx([]byte("s")) + " " + hx([]byte("B")))
				} else {
					st.run("lrange " + hx([]byte("l")) + " " + hx([]byte("A")) + " 0 -1")
					st.run("lrange " + hx([]byte("l")) + " " + hx([]byte("B")) + " 0 -1")
				}
				st.run("zcard " + hx([]byte("z")))
				st.run("getall " + hx([]byte("m")))
				st.run("rollback")
				st.closeQuiet()
			} else {
				emit("#SPEC open-failed after concurrent run")
			}
			emit("#STAT conc writers=%d readers=%d aborted=%d", len(ws), len(rs), len(dr.txs)-len(ws)-len(rs))
			os.RemoveAll(dr.dir)
		}
	}
}

func posList(ws []*ctx) []int {
	var l []int
	for _, c := range ws {
		l = append(l, c.pos)
	}
	return l
}

func splitOpts(open string) []int {
	var t [5]int
	fmt.Sscanf(open, "open %d %d %d %d %d", &t[0], &t[1], &t[2], &t[3], &t[4])
	return t[:]
}

// suiteBackup (C18)
func suiteBackup(seed uint64, n int, work string) {
	os.MkdirAll(work, 0755)
	st := NewSt(work)
	nutsdb.VerifObserver = st.observer
	root := NewPRNG(seed)
	p := profileByName("mixed")
	p.Abort, p.Oversize, p.ReadOnly, p.DoneCalls, p.Reopen, p.Txs = 5, 0, 5, 0, 10, 6
	p.NoSPop = true
	for i := 0; i < n; i++ {
		r := root.Fork()
		seg := []int{150, 200, 400}[r.Intn(3)]
		// variants: 0 = mixed workload; 1 = no lists, a successful Merge on the same handle before the
		// backup (the lock protocol must survive it); 2 = key/value heavy, more than ten segments
		variant := i % 6
		pv := p
		if variant == 3 || variant == 5 {
			// 3: a Merge is issued while the copy is under way; 5: a Backup is issued while Merge removes the old segments
			pv.Txs = 10
		}
		if variant == 4 {
			pv.Txs = 5 // 4: Backup is issued while a writer holds the lock; the writer's Commit rotates the segment
		}
		if variant == 1 {
			pv.WList = 0
			pv.Txs = 10
		}
		if variant == 2 {
			pv.WKV, pv.WList, pv.WSet, pv.WZSet = 6, 0, 1, 1
			pv.Txs = 40
			seg = 150
		}
		open := optLine(r.Intn(2), r.Intn(2), r.Intn(2), r.Intn(2), seg)
		emit("#H %d %s backup variant=%d", i, open, variant)
		st.run("reset")
		st.run(open)
		for _, c := range genHistory(r, pv, seg) {
			if c == "reopen" {
				continue
			}
			st.run(c)
		}
		if st.dead || st.db == nil {
			continue
		}
		if variant == 1 {
			st.run("merge")
		}
		obs := obsCalls(p)
		if variant == 4 || variant == 5 {
			if suiteBackupLate(st, work, open, obs, variant, seg, i) {
				continue
			}
		}
		var before []string
		for _, c := range obs {
			before = append(before, st.run(c))
		}
		// Backup while a writer tries to commit: park the copy on a FIFO that sorts first in the directory
		fifo := st.dir + "/!sync"
		syscall.Mkfifo(fifo, 0644)
		bdir := st.dir + "_bak"
		os.RemoveAll(bdir)
		bdone := make(chan error, 1)
		go func() { bdone <- st.db.Backup(bdir) }()
		var wfd *os.File
		for k := 0; k < 2000; k++ {
			f, err := os.OpenFile(fifo, os.O_WRONLY|syscall.O_NONBLOCK, 0)
			if err == nil {
				wfd = f
				break
			}
			time.Sleep(time.Millisecond)
		}
		if wfd == nil {
			emit("#SPEC backup never started copying")
			os.Remove(fifo)
			st.closeQuiet()
			continue
		}
		wdone := make(chan error, 1)
		go func() {
			wdone <- st.db.Update(func(tx *nutsdb.Tx) error {
				return tx.PutWithTimestamp("b1", []byte("a"), []byte("written-during-backup"), 0, 1700000000)
			})
		}()
		mdone := make(chan error, 1)
		if variant == 3 {
			go func() { mdone <- st.db.Merge() }()
		}
		select {
		case <-wdone:
			emit("#SPEC a write transaction committed while Backup was copying the directory")
			wdone <- nil
		case err := <-mdone:
			if err == nil {
				emit("#SPEC Merge ran to completion while Backup was copying the directory")
			}
			mdone <- err
		case <-time.After(150 * time.Millisecond):
		}
		wfd.Close()
		stuck := false
		if err, ok := waitCh(bdone, "Backup"); !ok {
			stuck = true
		} else if err != nil {
			emit("#SPEC backup failed: %v", err)
		}
		if _, ok := waitCh(wdone, "the write transaction started during Backup"); !ok {
			stuck = true
		}
		if variant == 3 {
			if _, ok := waitCh(mdone, "the Merge started during Backup"); !ok {
				stuck = true
			}
		}
		if stuck {
			os.Remove(fifo)
			st.db, st.tx = nil, nil // abandoned: a goroutine is stuck inside it
			continue
		}
		os.Remove(fifo)
		os.Remove(bdir + "/!sync")
		// the writer's commit is now part of the source; bring model and spec up to date
		emit("begin w %d = ok", uint64(1)<<62+uint64(i))
		emit("put %s %s %s 0 1700000000 = ok", hx([]byte("b1")), hx([]byte("a")), hx([]byte("written-during-backup")))
		emit("commit = ok")
		st.closeQuiet()
		// open the copy with the same options: exactly the state before the backup
		st2 := NewSt(work)
		st2.comment = true
		st2.dir = bdir
		if st2.run(open) != "ok" {
			emit("#SPEC open-failed on the backup copy (%s)", open)
		} else {
			var after []string
			for _, c := range obs {
				after = append(after, st2.run(c))
			}
			nk, real := diffClass(after, before, obs)
			if variant != 1 && variant != 3 && real == "" && nk > 0 {
				// without a Merge an empty structure keeps its existence across a reopen
				for k := range obs {
					if after[k] != before[k] {
						real = fmt.Sprintf("call %q backup=%q source=%q", obs[k], after[k], before[k])
						break
					}
				}
			}
			if real != "" {
				emit("#SPEC backup copy differs from the state when Backup started: %s", real)
			} else if nk > 0 {
				emit("#KNOWN F30 the backup of a merged database: %d empty structures answer 'not found' in the copy", nk)
			}
			st2.closeQuiet()
		}
		os.RemoveAll(bdir)
	}
	st.reset()
	os.RemoveAll(st.dir)
}

// suiteBackupLate: the two Backup schedules in which the copy must show a state LATER than the one at the call.
//   variant 4: a write transaction holds the lock when Backup is called; its Commit (a record as large as a whole
//     segment: the active segment is rotated) comes first, so the copy must contain that transaction;
//   variant 5: Backup is called at the moment Merge removes the first old segment; Merge holds the lock until it
//     is done, so the copy must be the merged directory (the same contents as the source reopened).
// Returns true when the case is finished.
func suiteBackupLate(st *St, work, open string, obs []string, variant, seg, i int) bool {
	bdir := st.dir + "_bak"
	os.RemoveAll(bdir)
	bdone := make(chan error, 1)
	if variant == 4 {
		if st.run("begin w ?") != "ok" {
			return true
		}
		go func() { bdone <- st.db.Backup(bdir) }()
		time.Sleep(60 * time.Millisecond) // Backup is now waiting for the lock (or has not started: then nothing is tested)
		st.run(fmt.Sprintf("put %s %s %s 0 1700000000", hx([]byte("b1")), hx([]byte("a")), hx([]byte(strings.Repeat("\x02", seg-42-2-1)))))
		cres := st.run("commit")
		st.run("rollback")
		if err, ok := waitCh(bdone, "Backup called while a write transaction held the lock"); !ok {
			st.db, st.tx = nil, nil
			return true
		} else if err != nil {
			emit("#SPEC backup failed: %v", err)
		}
		_ = cres
	} else {
		started := false
		prev := nutsdb.VerifObserver
		nutsdb.VerifObserver = func(op, path string, off int64, d []byte) error {
			if op == "remove" && strings.HasSuffix(path, ".dat") && !started {
				started = true
				go func() { bdone <- st.db.Backup(bdir) }()
				// with the lock held by Merge, Backup cannot finish before this callback returns
				select {
				case err := <-bdone:
					bdone <- err
				case <-time.After(120 * time.Millisecond):
				}
			}
			return prev(op, path, off, d)
		}
		mres := st.run("merge")
		nutsdb.VerifObserver = prev
		if !started {
			return true // Merge had nothing to remove
		}
		if err, ok := waitCh(bdone, "Backup called while Merge removed old segments"); !ok {
			st.db, st.tx = nil, nil
			return true
		} else if err != nil {
			emit("#SPEC backup failed: %v (merge=%s)", err, mres)
		}
	}
	// the source, closed and reopened, is the reference: the copy was taken from the same files
	st.comment = true
	st.run("close")
	st.db = nil
	var before []string
	if st.run(open) != "ok" {
		emit("#SPEC open-failed on the source after the backup (variant %d)", variant)
		st.comment = false
		return true
	}
	for _, c := range obs {
		before = append(before, st.run(c))
	}
	st.closeQuiet()
	st.comment = false
	st2 := NewSt(work)
	st2.comment = true
	st2.dir = bdir
	if st2.run(open) != "ok" {
		emit("#SPEC open-failed on the backup copy (%s, variant %d)", open, variant)
	} else {
		var after []string
		for _, c := range obs {
			after = append(after, st2.run(c))
		}
		for k := range obs {
			if after[k] != before[k] {
				emit("#SPEC backup copy differs from the source (variant %d: the copy must contain %s): call %q backup=%q source=%q", variant,
					map[int]string{4: "the transaction that held the lock when Backup was called", 5: "the merged directory"}[variant], obs[k], after[k], before[k])
				break
			}
		}
		st2.closeQuiet()
	}
	os.RemoveAll(bdir)
	return true
}

// waitCh waits for a goroutine's result; a goroutine that does not answer within 30 s is stuck in the library
// (the lock protocol is broken): the caller reports it and abandons the case.
func waitCh(ch chan error, what string) (error, bool) {
	select {
	case err := <-ch:
		return err, true
	case <-time.After(30 * time.Second):
		emit("#SPEC %s did not return within 30 s (deadlock inside the library)", what)
		return nil, false
	}
}
