package main

// crash.go — crash / power-loss enumeration (C09, C10, C11).
// The workload runs once on the real library with every file mutation recorded
// (hooks, build tag verif).  For every mutation point — and for each write a set
// of torn prefixes — the directory image a crash at that point leaves is
// rebuilt from the recorded events, opened with the real Open and observed.

import (
	"fmt"
	"io/ioutil"
	"os"
	"path/filepath"
	"sort"
	"strings"

	"github.com/xujiajun/nutsdb"
)

type span struct {
	start, end int // event indexes [start, end)
	ok         bool
	obsAfter   int // index into obsList of the observation after this commit (if ok)
	obsBefore  int
}

// buildImage replays events[0:upto] (plus a torn prefix of events[upto] when torn >= 0) into dir.
// powerLoss: each file reverts to its content at its last sync (unsynced writes dropped);
// files never synced disappear when dropUnsyncedFiles is set.
func buildImage(dir string, events []Event, upto int, torn int, powerLoss bool, keepLast bool) {
	os.RemoveAll(dir)
	os.MkdirAll(dir, 0755)
	type fstate struct {
		data   []byte
		exists bool
	}
	vol := map[string]*fstate{}  // volatile (page cache) content
	dur := map[string]*fstate{}  // durable content
	get := func(m map[string]*fstate, p string) *fstate {
		if m[p] == nil {
			m[p] = &fstate{}
		}
		return m[p]
	}
	apply := func(m map[string]*fstate, e Event, n int) {
		switch e.Op {
		case "mkdir":
		case "create":
			get(m, e.Path).exists = true
		case "truncate":
			f := get(m, e.Path)
			f.exists = true
			if int64(len(f.data)) < e.Off {
				f.data = append(f.data, make([]byte, e.Off-int64(len(f.data)))...)
			}
		case "write":
			f := get(m, e.Path)
			f.exists = true
			d := e.Data
			if n >= 0 && n < len(d) {
				d = d[:n]
			}
			if need := int(e.Off) + len(d); need > len(f.data) {
				f.data = append(f.data, make([]byte, need-len(f.data))...)
			}
			copy(f.data[e.Off:], d)
		case "remove":
			delete(m, e.Path)
		}
	}
	for i := 0; i < upto && i < len(events); i++ {
		e := events[i]
		apply(vol, e, -1)
		if e.Op == "sync" {
			if v := vol[e.Path]; v != nil {
				dur[e.Path] = &fstate{data: append([]byte(nil), v.data...), exists: true}
			}
		}
		if e.Op == "remove" {
			delete(dur, e.Path) // stated assumption: removals are durable (their loss is examined by the merge suite)
		}
		if e.Op == "create" || e.Op == "truncate" {
			// file creation / extension: durable (the zero-filled extent carries no information)
			d := get(dur, e.Path)
			d.exists = true
			if e.Op == "truncate" && int64(len(d.data)) < e.Off {
				d.data = append(d.data, make([]byte, e.Off-int64(len(d.data)))...)
			}
		}
	}
	img := vol
	if powerLoss {
		img = dur
		if keepLast && upto > 0 {
			// the last unsynced write survives (possibly torn)
			e := events[upto-1]
			if e.Op == "write" {
				apply(img, e, -1)
			}
		}
	}
	if torn >= 0 && upto < len(events) && events[upto].Op == "write" {
		apply(img, events[upto], torn)
	}
	for p, f := range img {
		if !f.exists {
			continue
		}
		full := filepath.Join(dir, p)
		os.MkdirAll(filepath.Dir(full), 0755)
		ioutil.WriteFile(full, f.data, 0644)
	}
	// directories created by mkdir events
	for i := 0; i < upto && i < len(events); i++ {
		if events[i].Op == "mkdir" {
			os.MkdirAll(filepath.Join(dir, events[i].Path), 0755)
		}
	}
}

func tornPoints(e Event) []int {
	n := len(e.Data)
	if e.Op != "write" || n == 0 {
		return []int{-1}
	}
	pts := map[int]bool{0: true, n - 1: true}
	for _, p := range []int{1, 4, 12, 16, 20, 22, 26, 30, 32, 34, 42, 43, n / 2} {
		if p < n {
			pts[p] = true
		}
	}
	var l []int
	for p := range pts {
		l = append(l, p)
	}
	sort.Ints(l)
	return l
}

func eqs(x, y []string) bool {
	if len(x) != len(y) {
		return false
	}
	for i := range x {
		if x[i] != y[i] {
			return false
		}
	}
	return true
}

// suiteCrash: mode "process" (C09/C10) or "power" (C11, SyncEnable forced on).
func suiteCrash(seed uint64, n int, work string, power bool, sparse bool) {
	os.MkdirAll(work, 0755)
	live := NewSt(work + "/live")
	rec := NewSt(work + "/rec")
	os.MkdirAll(work+"/live", 0755)
	os.MkdirAll(work+"/rec", 0755)
	cur := live
	nutsdb.VerifObserver = func(op, path string, off int64, d []byte) error { return cur.observer(op, path, off, d) }
	root := NewPRNG(seed)
	p := profileByName("mixed")
	p.Abort, p.Oversize, p.ReadOnly, p.DoneCalls, p.Reopen, p.Txs = 10, 3, 5, 0, 0, 7
	p.NoSPop = true
	p.OpsMin, p.OpsMax = 1, 4
	p.Vals = append(append([]string{}, p.Vals...), strings.Repeat("\x01", 120), strings.Repeat("\x02", 260))
	if sparse {
		// HintBPTSparseIdxMode: key/value data in one bucket (what C02 covers), enough keys per segment
		// for on-disk index trees with inner nodes, several sealed segments
		p = profileByName("sparse2")
		p.Reopen, p.Txs, p.ReadOnly, p.Abort = 0, 14, 5, 5
	}
	sparseBuckets := []string{"bk", "data", "cache", "t", "a.m"}
	images, opens := 0, 0
	for i := 0; i < n; i++ {
		r := root.Fork()
		seg := []int{150, 200, 300, 600, 1000}[r.Intn(5)]
		sync := r.Intn(2)
		if power {
			sync = 1
		}
		mode, rw, load := r.Intn(2), r.Intn(2), r.Intn(2)
		if sparse {
			mode = 2
			seg = []int{300, 450, 600}[r.Intn(3)]
		}
		pi := p
		if sparse {
			pi.Buckets = []string{sparseBuckets[i%len(sparseBuckets)]}
		}
		if !sparse && i%4 == 3 {
			// a long history over small segments: more than ten data files (file ids with one and two digits)
			pi.Txs = 34
			pi.OpsMin, pi.OpsMax = 2, 4
			seg = 150
		}
		open := optLine(mode, rw, load, sync, seg)
		emit("#H %d %s power=%v", i, open, power)
		out.Flush()
		live.comment = true
		rec.comment = true
		cur = live
		live.run("reset")
		live.record = true
		live.events = nil
		live.run(open)
		obsOf := func(s *St) []string {
			prev := cur
			cur = s
			rc := s.record
			s.record = false // observations are reads; the files they touch are not part of the workload's trace
			var rs []string
			for _, c := range obsCalls(pi) {
				rs = append(rs, s.run(c))
			}
			s.record = rc
			cur = prev
			return rs
		}
		obsList := [][]string{obsOf(live)}
		var spans []span
		body := genHistory(r, pi, seg)
		for _, c := range body {
			if c == "reopen" || live.dead {
				continue
			}
			if c == "commit" {
				s0 := len(live.events)
				res := live.run(c)
				sp := span{start: s0, end: len(live.events), ok: res == "ok", obsBefore: len(obsList) - 1}
				if res == "ok" {
					obsList = append(obsList, obsOf(live))
					sp.obsAfter = len(obsList) - 1
				}
				spans = append(spans, sp)
				continue
			}
			live.run(c)
		}
		live.record = false
		events := live.events
		live.closeQuiet()
		if os.Getenv("VERIF_EVDUMP") != "" {
			for k, e := range events {
				fmt.Fprintf(os.Stderr, "EV %d %s %s off=%d len=%d\n", k, e.Op, e.Path, e.Off, len(e.Data))
			}
		}
		if sync == 1 {
			// tie for TraceFacts.synced_writes: with SyncEnable every data-file write is
			// followed by a sync of the same file before the next write
			pending := ""
			for k, e := range events {
				if !strings.HasSuffix(e.Path, ".dat") {
					continue
				}
				if e.Op == "write" {
					if pending != "" {
						emit("#SPEC sync-protocol: write to %s at event %d while the previous write to %s was not synced (SyncEnable=true)", e.Path, k, pending)
					}
					pending = e.Path
				} else if e.Op == "sync" && e.Path == pending {
					pending = ""
				}
			}
			if pending != "" {
				emit("#SPEC sync-protocol: the last write to %s was never synced (SyncEnable=true)", pending)
			}
		}
		// enumerate crash points
		step := 1
		if len(events) > 120 {
			step = len(events)/120 + 1
		}
		// crash points outside the window of known finding F32 first: a call that never returns ends the run, and inside
		// that window it is attributed to the finding — what lies outside must have been examined by then
		inF32 := func(e int) bool {
			if !sparse {
				return false
			}
			for _, sp := range spans {
				if sp.start <= e && e < sp.end {
					for k := sp.start; k < sp.end && k < len(events); k++ {
						if strings.HasPrefix(events[k].Path, "bpt/") || strings.HasPrefix(events[k].Path, "meta/") {
							return true
						}
					}
				}
			}
			return false
		}
		var points []int
		for pass := 0; pass < 2; pass++ {
			for e := 0; e <= len(events); e += step {
				if inF32(e) == (pass == 1) {
					points = append(points, e)
				}
			}
		}
		for _, e := range points {
			var admissible []int
			inflight := false
			for _, sp := range spans {
				if sp.start <= e && e < sp.end {
					admissible = []int{sp.obsBefore}
					if sp.ok {
						admissible = append(admissible, sp.obsAfter)
					}
					inflight = true
				}
			}
			if !inflight {
				k := 0
				for _, sp := range spans {
					if sp.end <= e && sp.ok {
						k = sp.obsAfter
					}
				}
				admissible = []int{k}
			}
			// known finding F32 (sparse index mode): the index files of a sealed segment, the transaction-id
			// trees and the bucket meta file are rewritten by Commit without a common commit point (the data
			// record with the commit marker is written first, the key range of the bucket and the index files
			// afterwards): a crash inside a Commit that rewrites any of them is not recoverable
			f32 := false
			if sparse {
				for _, sp := range spans {
					if sp.start <= e && e < sp.end {
						for k := sp.start; k < sp.end && k < len(events); k++ {
							if strings.HasPrefix(events[k].Path, "bpt/") || strings.HasPrefix(events[k].Path, "meta/") {
								f32 = true
							}
						}
					}
				}
			}
			watchKnown = ""
			if f32 {
				watchKnown = "F32" // a corrupted index file of the sparse mode can also make Open or a read loop for ever
			}
			specOrKnown := func(format string, a ...interface{}) {
				if f32 {
					emit("#KNOWN F32 "+format, a...)
				} else {
					emit("#SPEC "+format, a...)
				}
			}
			variants := []int{-1}
			if e < len(events) {
				variants = tornPoints(events[e])
			}
			for vi, torn := range variants {
				for pl := 0; pl < 2; pl++ {
					if pl == 1 && !power {
						continue
					}
					keepLast := pl == 1 && vi%2 == 1
					images++
					cur = rec
					rec.reset()
					buildImage(rec.dir, events, e, torn, pl == 1, keepLast)
					// every StartFileLoadingMode / RWMode for the reopen
					lm := (images / 2) % 2
					rwm := images % 2
					ropen := optLine(mode, rwm, lm, sync, seg)
					opens++
					if rec.run(ropen) != "ok" {
						specOrKnown("open-failed after a crash at event %d/%d (%s %s off=%d torn=%d power=%v keepLast=%v) reopen=(%s) error=%q", e, len(events), evOp(events, e), evPath(events, e), evOff(events, e), torn, pl == 1, keepLast, ropen, rec.lastOpenErr)
						continue
					}
					o := obsOf(rec)
					okk := false
					for _, a := range admissible {
						if eqs(o, obsList[a]) {
							okk = true
						}
					}
					if !okk {
						d := firstDiff(o, obsList[admissible[0]], obsCalls(pi))
						specOrKnown("crash at event %d/%d (%s %s off=%d torn=%d power=%v keepLast=%v inflight=%v): recovered state is neither the state before nor after the in-flight transaction: %s", e, len(events), evOp(events, e), evPath(events, e), evOff(events, e), torn, pl == 1, keepLast, inflight, d)
					}
					// continue after recovery: more commits (forcing rotations), clean reopen
					// (crash points inside the first Open are always continued: what it left half-made must be completed
					// by the next Open, not only tolerated by it)
					if okk && (images%7 == 0 || torn > 100 || (torn > 0 && images%5 == 0) || e < 8) {
						cur = rec
						ok2 := true
						ncont := 5
						if images%14 == 0 || torn > 100 {
							ncont = 1 // a single short record over the torn one: its leftover bytes follow
						}
						big := torn > 0 && images%5 == 0 && !sparse
						if big {
							ncont = 2 // first a record as large as a whole segment: rotation seals the segment with the torn bytes at its tail
						}
						for t := 0; t < ncont && ok2; t++ {
							cv := strings.Repeat("\x02", 40+t)
							if big && t == 0 {
								cv = strings.Repeat("\x02", seg-42-2-2)
							}
							rec.run("begin w ?")
							rec.run(fmt.Sprintf("put %s %s %s 0 1700000000", hx([]byte("zz")), hx([]byte(fmt.Sprintf("c%d", t))), hx([]byte(cv))))
							if rec.run("commit") != "ok" {
								ok2 = false
								specOrKnown("commit failed after crash recovery (event %d torn %d)", e, torn)
							}
							rec.run("rollback")
						}
						o1 := obsOf(rec)
						rec.run("begin r ?")
						g1 := rec.run("getall " + hx([]byte("zz")))
						rec.run("rollback")
						rec.run("close")
						rec.db = nil
						if rec.run(optLine(mode, (rwm+1)%2, (lm+1)%2, sync, seg)) != "ok" {
							specOrKnown("open-failed after crash at event %d (torn=%d), recovery, %d further commits and a clean close", e, torn, ncont)
						} else {
							o2 := obsOf(rec)
							rec.run("begin r ?")
							g2 := rec.run("getall " + hx([]byte("zz")))
							rec.run("rollback")
							if !eqs(o1, o2) || g1 != g2 || !strings.Contains(g2, hx([]byte(fmt.Sprintf("c%d", ncont-1)))) {
								specOrKnown("commits made after crash recovery (event %d torn=%d) are lost or changed after a clean reopen: %q vs %q", e, torn, g1, g2)
							}
						}
					}
					rec.closeQuiet()
				}
			}
		}
		emit("#STAT crash history=%d events=%d spans=%d images=%d", i, len(events), len(spans), images)
	}
	emit("#STAT crash images=%d opens=%d", images, opens)
	live.comment, rec.comment = false, false
	cur = live
	live.reset()
	rec.reset()
	os.RemoveAll(work + "/live")
	os.RemoveAll(work + "/rec")
}

func evOp(ev []Event, i int) string {
	if i < len(ev) {
		return ev[i].Op
	}
	return "end"
}
func evPath(ev []Event, i int) string {
	if i < len(ev) {
		return ev[i].Path
	}
	return "-"
}
func evOff(ev []Event, i int) int64 {
	if i < len(ev) {
		return ev[i].Off
	}
	return 0
}

func firstDiff(a, b, calls []string) string {
	for i := range a {
		if i < len(b) && a[i] != b[i] {
			c := ""
			if i < len(calls) {
				c = calls[i]
			}
			return fmt.Sprintf("call %q recovered=%q expected(before)=%q", c, a[i], b[i])
		}
	}
	return "lengths differ"
}

// suiteMergeCrash (C16): a crash at every file-mutation point inside Merge
// (torn writes included) must leave a directory that reopens to the pre-Merge contents.
// power: SyncEnable forced on and every image is the one a power loss leaves (unsynced writes dropped).
// pos: the workload uses position-dependent sorted-set removals (pops, rank ranges); differences of the
// sorted sets they touch are known finding F31.
func suiteMergeCrash(seed uint64, n int, work string, power bool, pos bool) {
	os.MkdirAll(work, 0755)
	live := NewSt(work + "/live")
	rec := NewSt(work + "/rec")
	os.MkdirAll(work+"/live", 0755)
	os.MkdirAll(work+"/rec", 0755)
	cur := live
	nutsdb.VerifObserver = func(op, path string, off int64, d []byte) error { return cur.observer(op, path, off, d) }
	root := NewPRNG(seed)
	p := profileByName("mixed")
	p.WKV, p.WList, p.WSet, p.WZSet = 4, 0, 2, 2
	p.FixedScores = true
	p.Abort, p.Oversize, p.ReadOnly, p.DoneCalls, p.Reopen, p.Txs = 10, 2, 5, 0, 0, 12
	p.NoSPop = true
	if pos {
		p.FixedScores = false
		p.SmallRanks = true
		p.WKV, p.WList, p.WSet, p.WZSet = 2, 0, 1, 5
		p.Buckets = []string{"z", "b1"}
	}
	images := 0
	for i := 0; i < n; i++ {
		r := root.Fork()
		seg := []int{150, 200, 300}[r.Intn(3)]
		sync := r.Intn(2)
		if power {
			sync = 1
		}
		mode, rw, load := r.Intn(2), r.Intn(2), r.Intn(2)
		open := optLine(mode, rw, load, sync, seg)
		emit("#H %d %s mergecrash power=%v", i, open, power)
		out.Flush()
		live.comment, rec.comment = true, true
		cur = live
		live.run("reset")
		live.record = true
		live.events = nil
		live.run(open)
		obsOf := func(s *St) []string {
			prev := cur
			cur = s
			rc := s.record
			s.record = false
			var rs []string
			for _, c := range obsCalls(p) {
				rs = append(rs, s.run(c))
			}
			s.record = rc
			cur = prev
			return rs
		}
		posBuckets := map[string]bool{}
		for _, c := range genHistory(r, p, seg) {
			if c == "reopen" || live.dead {
				continue
			}
			if f := strings.Fields(c); len(f) >= 2 && (f[0] == "zpopmin" || f[0] == "zpopmax" || f[0] == "zremrangebyrank") {
				posBuckets[f[1]] = true
			}
			live.run(c)
		}
		before := obsOf(live)
		m0 := len(live.events)
		mres := live.run("merge")
		m1 := len(live.events)
		after := obsOf(live)
		live.record = false
		events := live.events
		live.closeQuiet()
		if _, real := diffClass(after, before, obsCalls(p)); mres == "ok" && real != "" {
			emit("#SPEC merge-changed the observation in the running process: %s", real)
		}
		for e := m0; e <= m1; e++ {
			variants := []int{-1}
			if e < len(events) {
				variants = tornPoints(events[e])
			}
			for _, torn := range variants {
				images++
				cur = rec
				rec.reset()
				buildImage(rec.dir, events, e, torn, power, power && images%2 == 1)
				ropen := optLine(mode, images%2, (images/2)%2, sync, seg)
				if rec.run(ropen) != "ok" {
					emit("#SPEC open-failed after a crash during Merge at event %d (%s %s torn=%d power=%v) reopen=(%s)", e-m0, evOp(events, e), evPath(events, e), torn, power, ropen)
					continue
				}
				o := obsOf(rec)
				// F31: the sorted sets touched by position-dependent removals may differ after a crash inside Merge
				nF31 := 0
				if pos {
					oc := obsCalls(p)
					for k := range o {
						f := strings.Fields(oc[k])
						if k < len(before) && o[k] != before[k] && !(o[k] == "err" && isEmptyAnswer(before[k])) &&
							len(f) >= 2 && strings.HasPrefix(f[0], "z") && posBuckets[f[1]] {
							o[k] = before[k]
							nF31++
						}
					}
					if nF31 > 0 {
						emit("#KNOWN F31 crash during Merge at event %d/%d: %d observations of sorted sets with position-dependent removal records differ after recovery", e-m0, m1-m0, nF31)
					}
				}
				if nk, real := diffClass(o, before, obsCalls(p)); real != "" {
					emit("#SPEC crash during Merge at event %d/%d (%s %s torn=%d power=%v): contents differ from before Merge: %s", e-m0, m1-m0, evOp(events, e), evPath(events, e), torn, power, real)
				} else if nk > 0 {
					emit("#KNOWN F30 crash during Merge at event %d/%d: %d empty structures answer 'not found' after recovery", e-m0, m1-m0, nk)
				}
				rec.closeQuiet()
			}
		}
		emit("#STAT mergecrash history=%d merge=%s events=%d", i, mres, m1-m0)
	}
	emit("#STAT crash images=%d opens=%d", images, images)
	live.comment, rec.comment = false, false
	cur = live
	live.reset()
	rec.reset()
	os.RemoveAll(work + "/live")
	os.RemoveAll(work + "/rec")
}

func isEmptyAnswer(s string) bool {
	return s == "bool 0" || s == "int 0" || s == "list" || s == "nodes" || s == "node -"
}

// diffClass compares an observation with the expected one.  Differences of the
// known-finding class F30 (a structure that was empty before answers "not found"
// — err — afterwards) are counted; the first other difference is returned.
func diffClass(got, want, calls []string) (nF30 int, real string) {
	if len(got) != len(want) {
		return 0, "observation lengths differ"
	}
	for i := range got {
		if got[i] == want[i] {
			continue
		}
		if got[i] == "err" && isEmptyAnswer(want[i]) {
			nF30++
			continue
		}
		// an empty set key: SHasKey was true, its members (the preceding observation) were empty
		if i > 0 && i < len(calls) && strings.HasPrefix(calls[i], "shaskey ") && want[i] == "bool 1" && want[i-1] == "list" &&
			(got[i] == "bool 0" || got[i] == "err") {
			nF30++
			continue
		}
		if real == "" {
			c := ""
			if i < len(calls) {
				c = calls[i]
			}
			real = fmt.Sprintf("call %q recovered=%q expected=%q", c, got[i], want[i])
		}
	}
	return
}

// suiteMergeFault (C15: "whether it succeeds or fails"): an I/O error injected at
// the k-th file mutation of Merge; afterwards every read must be unchanged, in the
// running process and after reopen, and later writes must be durable.
func suiteMergeFault(seed uint64, n int, work string) {
	os.MkdirAll(work, 0755)
	st := NewSt(work)
	st.comment = true
	nutsdb.VerifObserver = st.observer
	root := NewPRNG(seed)
	p := profileByName("mixed")
	p.WKV, p.WList, p.WSet, p.WZSet = 4, 0, 2, 2
	p.FixedScores = true
	p.Abort, p.Oversize, p.ReadOnly, p.DoneCalls, p.Reopen, p.Txs = 5, 0, 5, 0, 0, 12
	p.NoSPop = true
	fired := 0
	for i := 0; i < n; i++ {
		r := root.Fork()
		seg := []int{150, 200, 300}[r.Intn(3)]
		open := optLine(r.Intn(2), r.Intn(2), r.Intn(2), r.Intn(2), seg)
		emit("#H %d %s mergefault", i, open)
		out.Flush()
		st.run("reset")
		st.run(open)
		for _, c := range genHistory(r, p, seg) {
			if c == "reopen" || st.dead {
				continue
			}
			st.run(c)
		}
		obs := obsCalls(p)
		doObs := func() []string {
			var rs []string
			for _, c := range obs {
				rs = append(rs, st.run(c))
			}
			return rs
		}
		before := doObs()
		j := r.Range(1, 40)
		part := []int{-1, 0, 10, 42, 47}[r.Intn(5)]
		res := st.run(fmt.Sprintf("mergefault %d %d", j, part))
		kind := st.faultOp
		if kind != "" {
			fired++
		}
		if st.dead {
			emit("#SPEC panic during Merge with an injected %s error", kind)
			continue
		}
		after := doObs()
		if _, real := diffClass(after, before, obs); real != "" {
			emit("#SPEC Merge (result %s, injected %s error at event %d, partial %d) changed reads in the running process: %s", res, kind, j, part, real)
		}
		// writes after the failed Merge must be durable
		st.run("begin w ?")
		st.run(fmt.Sprintf("put %s %s %s 0 1700000000", hx([]byte("zz")), hx([]byte("after")), hx([]byte("merge"))))
		if st.run("commit") != "ok" {
			emit("#SPEC commit failed after a Merge that hit an I/O error (%s)", kind)
		}
		st.run("rollback")
		if st.run("close") != "ok" {
			emit("#SPEC close failed after a Merge that hit an I/O error (%s)", kind)
		}
		st.db = nil
		if st.run(open) != "ok" {
			emit("#SPEC open-failed after a Merge that hit an I/O error (%s at event %d, partial %d)", kind, j, part)
			continue
		}
		again := doObs()
		if nk, real := diffClass(again, before, obs); real != "" {
			emit("#SPEC Merge (result %s, injected %s error at event %d, partial %d) changed reads after reopen: %s", res, kind, j, part, real)
		} else if nk > 0 {
			emit("#KNOWN F30 after a Merge interrupted by an I/O error and reopen: %d empty structures answer 'not found'", nk)
		}
		st.run("begin r ?")
		if g := st.run("get " + hx([]byte("zz")) + " " + hx([]byte("after"))); g != "entry "+hx([]byte("after"))+" "+hx([]byte("merge")) {
			emit("#SPEC a write committed after the failed Merge is lost after reopen: %s", g)
		}
		st.run("rollback")
		st.closeQuiet()
	}
	emit("#STAT mergefault histories=%d fired=%d", n, fired)
	st.comment = false
	st.reset()
	os.RemoveAll(st.dir)
}
