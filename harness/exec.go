package main

import (
	"bufio"
	"encoding/hex"
	"os"
	"strconv"
	"strings"

	"github.com/xujiajun/nutsdb"
)

func unhx(s string) []byte {
	if len(s) == 0 || s[0] != 'x' {
		panic("bad bytes token " + s)
	}
	b, err := hex.DecodeString(s[1:])
	if err != nil {
		panic(err)
	}
	return b
}

func atoi(s string) int {
	v, err := strconv.ParseInt(s, 10, 64)
	if err != nil {
		panic(err)
	}
	return int(v)
}

func atou(s string) uint64 {
	v, err := strconv.ParseUint(s, 10, 64)
	if err != nil {
		panic(err)
	}
	return v
}

// execPure runs one stateless command line against the real code.
func execPure(work string, cmd string, a []string) (string, bool) {
	switch cmd {
	case "enc":
		f := nutsdb.VerifFields{Bucket: unhx(a[0]), Key: unhx(a[1]), Value: unhx(a[2]), Timestamp: atou(a[3]),
			TTL: uint32(atou(a[4])), Flag: uint16(atou(a[5])), Status: uint16(atou(a[6])), Ds: uint16(atou(a[7])), TxID: atou(a[8])}
		return hx(nutsdb.VerifNewEntry(f).Encode()), true
	case "dec":
		return decodeEntry(work, atoi(a[0]), unhx(a[1]), atoi(a[2])), true
	case "renc":
		return hx(nutsdb.VerifNewRootIdx(atou(a[0]), atou(a[1]), unhx(a[2]), unhx(a[3])).Encode()), true
	case "rdec":
		return decodeRootIdx(work, unhx(a[0]), int64(atoi(a[1]))), true
	case "benc":
		return hx(nutsdb.VerifNewBucketMeta(unhx(a[0]), unhx(a[1])).Encode()), true
	case "bdec":
		return decodeBucketMeta(work, unhx(a[0])), true
	}
	return "", false
}

// suiteExec re-executes trace lines read from stdin (used by `check replay`
// and by the shrinker): everything after " = " is ignored and recomputed.
func suiteExec(work string) {
	os.MkdirAll(work, 0755)
	st := NewSt(work)
	nutsdb.VerifObserver = st.observer
	sc := bufio.NewScanner(os.Stdin)
	sc.Buffer(make([]byte, 1<<20), 1<<28)
	for sc.Scan() {
		l := sc.Text()
		if l == "" || l[0] == '#' {
			emit("%s", l)
			continue
		}
		call := l
		if i := strings.Index(l, " = "); i >= 0 {
			call = l[:i]
		}
		t := strings.Split(call, " ")
		if r, ok := execPure(work, t[0], t[1:]); ok {
			emit("%s = %s", call, r)
			continue
		}
		if t[0] == "now" {
			continue
		}
		st.run(call)
	}
}
