package main

// splitmix64: the single source of randomness of the harness.
type PRNG struct{ s uint64 }

func NewPRNG(seed uint64) *PRNG { return &PRNG{s: seed} }

func (p *PRNG) Next() uint64 {
	p.s += 0x9E3779B97F4A7C15
	z := p.s
	z = (z ^ (z >> 30)) * 0xBF58476D1CE4E5B9
	z = (z ^ (z >> 27)) * 0x94D049BB133111EB
	return z ^ (z >> 31)
}

// Intn returns a value in [0,n).
func (p *PRNG) Intn(n int) int {
	if n <= 0 {
		return 0
	}
	return int(p.Next() % uint64(n))
}

// Range returns a value in [lo,hi].
func (p *PRNG) Range(lo, hi int) int { return lo + p.Intn(hi-lo+1) }

func (p *PRNG) Bool() bool { return p.Next()&1 == 1 }

// Chance is true with probability num/den.
func (p *PRNG) Chance(num, den int) bool { return p.Intn(den) < num }

func (p *PRNG) Bytes(n int) []byte {
	b := make([]byte, n)
	for i := range b {
		b[i] = byte(p.Next())
	}
	return b
}

// Fork derives an independent generator.
func (p *PRNG) Fork() *PRNG { return NewPRNG(p.Next()) }
