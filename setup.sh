#!/bin/sh
# Builds the framework from files on disk only (offline): Rocq development
# (full .vo build), extracted model + OCaml driver, Go harness.
set -e
cd "$(dirname "$0")"
export GOFLAGS=-mod=mod GOPROXY=off GOSUMDB=off GOTOOLCHAIN=local
( cd coq && coq_makefile -f _CoqProject -o Makefile >/dev/null 2>&1 && timeout 3000 make -j16 >/dev/null )
./driver/build.sh
cp /repo/go.sum harness/go.sum
mkdir -p harness/_bin
( cd harness && go build -tags verif -o _bin/harness . )
echo setup ok
