#!/bin/sh
# Builds the framework from files on disk only (offline): Rocq development
# (full .vo build), extracted model + OCaml driver, Go harness.
set -e
cd "$(dirname "$0")"
export GOFLAGS=-mod=mod GOPROXY=off GOSUMDB=off GOTOOLCHAIN=local
( cd coq && coq_makefile -f _CoqProject -o Makefile >/dev/null 2>&1 && timeout 3000 make -j16 >/dev/null )
./driver/build.sh
cp /repo/go.sum harness/go.sum
mkdir -p harness/_bin
( cd harness && go build -tags verif -o _bin/harness . )
# second tie: translate the Go sources and compile the equivalence proofs once (each check re-does this
# incrementally against /repo's working tree; a failure here is reported by the checks, not by setup)
python3 - <<'PY' || true
import os, sys
sys.path.insert(0, os.path.join(os.getcwd(), "lib"))
import vcommon as vc
for name in sorted(vc.TIES):
    r = vc.translation_tie(name)
    print("tie", name, "ok" if r["ok"] else "BROKEN: " + r["stage"] + " " + r["file"])
PY
echo setup ok
